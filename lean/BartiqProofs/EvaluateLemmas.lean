/-
  Lemmas about `evaluate` (Pipeline.lean): it depends on the assignment only through three observations
  (lookup, "is a key", "occurs in a value"), it rewrites ports/resources by simultaneous substitution at
  every node, and the remaining input parameters are computed per node.
-/
import BartiqModel.Pipeline
import BartiqProofs.ExprLemmas
namespace Bartiq
open Expr

/-- the value part of a compiled tree: what the properties observe (ports and resources of every node) -/
inductive VTree where
  | node (name : String) (inputParams : List String) (ports : List Port) (resources : List Resource) (children : List VTree)

mutual
def CRoutine.vtree : CRoutine → VTree
  | ⟨n, _, ips, ps, rs, _, _, _, ch, _⟩ => .node n ips ps rs (CRoutine.vtreeList ch)
def CRoutine.vtreeList : List CRoutine → List VTree
  | [] => []
  | c :: cs => c.vtree :: CRoutine.vtreeList cs
end

/-- what `evaluate` observes of an assignment -/
structure SameAssignment (σ σ' : Dict Expr) : Prop where
  lookup : ∀ x, σ.get? x = σ'.get? x
  inValue : ∀ s, s ∈ σ.values.flatMap Expr.fv ↔ s ∈ σ'.values.flatMap Expr.fv
  isKey : ∀ s, s ∈ σ.keys ↔ s ∈ σ'.keys

theorem SameAssignment.subst {σ σ' : Dict Expr} (h : SameAssignment σ σ') (e : Expr) : Expr.subst σ e = Expr.subst σ' e :=
  subst_congr_lookup h.lookup e

theorem SameAssignment.contains {σ σ' : Dict Expr} (h : SameAssignment σ σ') (p : String) : σ.contains p = σ'.contains p := by
  simp [Dict.contains, h.lookup]

theorem evaluatePorts_congr {σ σ' : Dict Expr} (h : SameAssignment σ σ') (ps : List Port) :
    evaluatePorts ps σ = evaluatePorts ps σ' := by
  unfold evaluatePorts; apply List.map_congr_left; intro p _; rw [h.subst]

theorem evaluateResources_congr {σ σ' : Dict Expr} (h : SameAssignment σ σ') (rs : List Resource) :
    evaluateResources rs σ = evaluateResources rs σ' := by
  unfold evaluateResources; apply List.map_congr_left; intro r _; rw [h.subst]

theorem evaluateConstraints_congr (C : Comparator) {σ σ' : Dict Expr} (h : SameAssignment σ σ') (cs : List Constraint) (path : String) :
    evaluateConstraints C cs σ path = evaluateConstraints C cs σ' path := by
  unfold evaluateConstraints evaluateConstraint
  congr 1; funext c; simp only [h.subst]

theorem Seq.substituteSymbols_congr {σ σ' : Dict Expr} (h : SameAssignment σ σ') (s : Seq) :
    s.substituteSymbols σ = s.substituteSymbols σ' := by
  cases s with
  | constant m => simp [Seq.substituteSymbols, h.subst]
  | arithmetic i d => simp [Seq.substituteSymbols, h.subst]
  | geometric r => simp [Seq.substituteSymbols, h.subst]
  | closedForm s p n =>
    simp only [Seq.substituteSymbols]
    have hl : ∀ (nm : String) (e : Expr), Expr.subst (σ.erase nm) e = Expr.subst (σ'.erase nm) e := by
      intro nm e
      apply subst_congr_lookup
      intro x
      rw [Dict.get?_erase_ite, Dict.get?_erase_ite, h.lookup x]
    cases n with
    | sym nm =>
      simp only
      have : ∀ o : Option Expr, o.map (Expr.subst (σ.erase nm)) = o.map (Expr.subst (σ'.erase nm)) := by
        intro o; cases o <;> simp [hl nm]
      rw [this s, this p]
    | _ =>
      simp only
      first
        | (have : ∀ o : Option Expr, o.map (Expr.subst σ) = o.map (Expr.subst σ') := by
            intro o; cases o <;> simp [h.subst]
           rw [this s, this p])
  | custom t i =>
    cases i with
    | sym it =>
      simp only [Seq.substituteSymbols, h.subst]
      have hc : ((σ.values.flatMap Expr.fv).contains it || σ.keys.contains it) =
                ((σ'.values.flatMap Expr.fv).contains it || σ'.keys.contains it) := by
        rw [Bool.eq_iff_iff]
        simp only [Bool.or_eq_true, List.contains_iff_mem]
        rw [h.inValue it, h.isKey it]
      rw [hc]
    | num _ => simp [Seq.substituteSymbols, h.subst]
    | neg _ => simp [Seq.substituteSymbols, h.subst]
    | bin _ _ _ => simp [Seq.substituteSymbols, h.subst]
    | app _ _ => simp [Seq.substituteSymbols, h.subst]
    | big _ _ _ _ _ => simp [Seq.substituteSymbols, h.subst]

theorem Repetition.substituteSymbols_congr {σ σ' : Dict Expr} (h : SameAssignment σ σ') (r : Repetition) :
    r.substituteSymbols σ = r.substituteSymbols σ' := by
  simp [Repetition.substituteSymbols, Seq.substituteSymbols_congr h, h.subst]

mutual
theorem evaluateInternal_congr (C : Comparator) {σ σ' : Dict Expr} (h : SameAssignment σ σ') (fn : Expr → Expr) :
    ∀ (c : CRoutine) (path : String), evaluateInternal C σ fn path c = evaluateInternal C σ' fn path c
  | ⟨n, ty, ips, ps, rs, cs, rep, cons, ch, ord⟩, path => by
    have hf : (ips.filter fun p => !σ.contains p) = (ips.filter fun p => !σ'.contains p) := by
      apply List.filter_congr; intro p _; rw [h.contains]
    cases rep with
    | none =>
      simp only [evaluateInternal]
      rw [evaluateConstraints_congr _ h, evaluateInternalList_congr C h fn ch path,
          evaluatePorts_congr h, evaluateResources_congr h, hf]
    | some rp =>
      simp only [evaluateInternal]
      rw [evaluateConstraints_congr _ h, evaluateInternalList_congr C h fn ch path,
          evaluatePorts_congr h, evaluateResources_congr h, hf, Repetition.substituteSymbols_congr h]
theorem evaluateInternalList_congr (C : Comparator) {σ σ' : Dict Expr} (h : SameAssignment σ σ') (fn : Expr → Expr) :
    ∀ (cs : List CRoutine) (path : String), evaluateInternalList C σ fn path cs = evaluateInternalList C σ' fn path cs
  | [], _ => rfl
  | c :: cs, path => by
    simp only [evaluateInternalList]
    rw [evaluateInternal_congr C h fn c, evaluateInternalList_congr C h fn cs path]
end

/-- a permutation of a duplicate-free assignment is the same assignment -/
theorem SameAssignment.of_perm {σ σ' : Dict Expr} (hp : σ.Perm σ') (hn : (σ.map (·.1)).Nodup) : SameAssignment σ σ' where
  lookup := Dict.get?_perm hp hn
  inValue := by
    intro s
    have hv : (σ.values).Perm (σ'.values) := hp.map _
    simp only [List.mem_flatMap]
    constructor
    · rintro ⟨a, ha, hs⟩; exact ⟨a, hv.mem_iff.mp ha, hs⟩
    · rintro ⟨a, ha, hs⟩; exact ⟨a, hv.mem_iff.mpr ha, hs⟩
  isKey := by
    intro s
    have : (σ.keys).Perm (σ'.keys) := hp.map _
    exact this.mem_iff

end Bartiq

namespace Bartiq
open Expr

theorem Except.bind_ok {ε α β : Type} {x : Except ε α} {f : α → Except ε β} {b : β}
    (h : (x >>= f) = .ok b) : ∃ a, x = .ok a ∧ f a = .ok b := by
  cases x with
  | error e => simp [bind, Except.bind] at h
  | ok a => exact ⟨a, rfl, h⟩

/-- ports and resources of every node -/
inductive ETree where
  | node (ports : List Port) (resources : List Resource) (children : List ETree)

mutual
def CRoutine.etree : CRoutine → ETree
  | ⟨_, _, _, ps, rs, _, _, _, ch, _⟩ => .node ps rs (CRoutine.etreeList ch)
def CRoutine.etreeList : List CRoutine → List ETree
  | [] => []
  | c :: cs => c.etree :: CRoutine.etreeList cs
end

mutual
def ETree.mapExpr (f : Expr → Expr) : ETree → ETree
  | .node ps rs ch => .node (ps.map fun p => { p with size := f p.size }) (rs.map fun r => { r with value := f r.value }) (ETree.mapExprList f ch)
def ETree.mapExprList (f : Expr → Expr) : List ETree → List ETree
  | [] => []
  | t :: ts => t.mapExpr f :: ETree.mapExprList f ts
end

/-- input parameters of every node -/
inductive ITree where
  | node (inputParams : List String) (children : List ITree)

mutual
def CRoutine.itree : CRoutine → ITree
  | ⟨_, _, ips, _, _, _, _, _, ch, _⟩ => .node ips (CRoutine.itreeList ch)
def CRoutine.itreeList : List CRoutine → List ITree
  | [] => []
  | c :: cs => c.itree :: CRoutine.itreeList cs
end

mutual
def ITree.map (f : List String → List String) : ITree → ITree
  | .node ips ch => .node (f ips) (ITree.mapList f ch)
def ITree.mapList (f : List String → List String) : List ITree → List ITree
  | [] => []
  | t :: ts => t.map f :: ITree.mapList f ts
end

mutual
/-- **everywhere**: the ports and resources of every node of the result are those of the input with the
    same simultaneous substitution applied (then the user functions `fn`) -/
theorem evaluateInternal_etree (C : Comparator) (σ : Dict Expr) (fn : Expr → Expr) :
    ∀ (c : CRoutine) (path : String) (c' : CRoutine), evaluateInternal C σ fn path c = .ok c' →
      c'.etree = c.etree.mapExpr (fun e => fn (Expr.subst σ e))
  | ⟨n, ty, ips, ps, rs, cs, rep, cons, ch, ord⟩, path, c', h => by
    simp only [evaluateInternal] at h
    obtain ⟨nc, _, h⟩ := Except.bind_ok h
    obtain ⟨rp, _, h⟩ := Except.bind_ok h
    obtain ⟨ch', hch, h⟩ := Except.bind_ok h
    have ihc := evaluateInternalList_etree C σ fn ch path ch' hch
    simp only [pure, Except.pure, Except.ok.injEq] at h
    subst h
    simp only [CRoutine.etree, ETree.mapExpr, ihc, evaluatePorts, evaluateResources, List.map_map]
    rfl
theorem evaluateInternalList_etree (C : Comparator) (σ : Dict Expr) (fn : Expr → Expr) :
    ∀ (cs : List CRoutine) (path : String) (cs' : List CRoutine), evaluateInternalList C σ fn path cs = .ok cs' →
      CRoutine.etreeList cs' = ETree.mapExprList (fun e => fn (Expr.subst σ e)) (CRoutine.etreeList cs)
  | [], _, cs', h => by
    simp only [evaluateInternalList, pure, Except.pure, Except.ok.injEq] at h
    subst h; rfl
  | c :: cs, path, cs', h => by
    simp only [evaluateInternalList] at h
    obtain ⟨c1, hc1, h⟩ := Except.bind_ok h
    obtain ⟨cs1, hcs1, h⟩ := Except.bind_ok h
    simp only [pure, Except.pure, Except.ok.injEq] at h
    subst h
    simp only [CRoutine.etreeList, ETree.mapExprList]
    rw [evaluateInternal_etree C σ fn c _ c1 hc1, evaluateInternalList_etree C σ fn cs path cs1 hcs1]
end

mutual
/-- the remaining input parameters of every node: exactly those not assigned (sorted, without duplicates) -/
theorem evaluateInternal_itree (C : Comparator) (σ : Dict Expr) (fn : Expr → Expr) :
    ∀ (c : CRoutine) (path : String) (c' : CRoutine), evaluateInternal C σ fn path c = .ok c' →
      c'.itree = c.itree.map (fun ips => dedupSorted (ips.filter fun p => !σ.contains p))
  | ⟨n, ty, ips, ps, rs, cs, rep, cons, ch, ord⟩, path, c', h => by
    simp only [evaluateInternal] at h
    obtain ⟨nc, _, h⟩ := Except.bind_ok h
    obtain ⟨rp, _, h⟩ := Except.bind_ok h
    obtain ⟨ch', hch, h⟩ := Except.bind_ok h
    have ihc := evaluateInternalList_itree C σ fn ch path ch' hch
    simp only [pure, Except.pure, Except.ok.injEq] at h
    subst h
    simp only [CRoutine.itree, ITree.map, ihc]
theorem evaluateInternalList_itree (C : Comparator) (σ : Dict Expr) (fn : Expr → Expr) :
    ∀ (cs : List CRoutine) (path : String) (cs' : List CRoutine), evaluateInternalList C σ fn path cs = .ok cs' →
      CRoutine.itreeList cs' = ITree.mapList (fun ips => dedupSorted (ips.filter fun p => !σ.contains p)) (CRoutine.itreeList cs)
  | [], _, cs', h => by
    simp only [evaluateInternalList, pure, Except.pure, Except.ok.injEq] at h
    subst h; rfl
  | c :: cs, path, cs', h => by
    simp only [evaluateInternalList] at h
    obtain ⟨c1, hc1, h⟩ := Except.bind_ok h
    obtain ⟨cs1, hcs1, h⟩ := Except.bind_ok h
    simp only [pure, Except.pure, Except.ok.injEq] at h
    subst h
    simp only [CRoutine.itreeList, ITree.mapList]
    rw [evaluateInternal_itree C σ fn c _ c1 hc1, evaluateInternalList_itree C σ fn cs path cs1 hcs1]
end

mutual
theorem ETree.mapExpr_id : ∀ (t : ETree) (f : Expr → Expr), (∀ e, f e = e) → t.mapExpr f = t
  | .node ps rs ch, f, hf => by
    simp only [ETree.mapExpr, hf, ETree.mapExprList_id ch f hf]
    simp
theorem ETree.mapExprList_id : ∀ (ts : List ETree) (f : Expr → Expr), (∀ e, f e = e) → ETree.mapExprList f ts = ts
  | [], _, _ => rfl
  | t :: ts, f, hf => by simp only [ETree.mapExprList, ETree.mapExpr_id t f hf, ETree.mapExprList_id ts f hf]
end

mutual
theorem ETree.mapExpr_comp : ∀ (t : ETree) (f g : Expr → Expr), (t.mapExpr f).mapExpr g = t.mapExpr (fun e => g (f e))
  | .node ps rs ch, f, g => by
    simp only [ETree.mapExpr, List.map_map, ETree.mapExprList_comp ch f g]
    rfl
theorem ETree.mapExprList_comp : ∀ (ts : List ETree) (f g : Expr → Expr),
    ETree.mapExprList g (ETree.mapExprList f ts) = ETree.mapExprList (fun e => g (f e)) ts
  | [], _, _ => rfl
  | t :: ts, f, g => by simp only [ETree.mapExprList, ETree.mapExpr_comp t f g, ETree.mapExprList_comp ts f g]
end

mutual
theorem ETree.mapExpr_congr : ∀ (t : ETree) (f g : Expr → Expr), (∀ e, f e = g e) → t.mapExpr f = t.mapExpr g
  | .node ps rs ch, f, g, h => by
    simp only [ETree.mapExpr, h, ETree.mapExprList_congr ch f g h]
theorem ETree.mapExprList_congr : ∀ (ts : List ETree) (f g : Expr → Expr), (∀ e, f e = g e) →
    ETree.mapExprList f ts = ETree.mapExprList g ts
  | [], _, _, _ => rfl
  | t :: ts, f, g, h => by simp only [ETree.mapExprList, ETree.mapExpr_congr t f g h, ETree.mapExprList_congr ts f g h]
end

end Bartiq
