/-
  The recursive-descent parser of BartiqModel/Parser.lean reads every phrase of the STANDARD grammar
  (usual precedence levels, left-associative + - * / // %, right-associative power binding tighter than a unary sign on
  its left and admitting a signed exponent, parentheses, function calls) as the tree the grammar assigns to it.
-/
import BartiqModel.Parser
namespace Bartiq
open Tok

/-- phrase kinds of the grammar; tails carry the tree built so far (left associativity) -/
inductive K where
  | expr | exprTail (acc : SExpr) | term | termTail (acc : SExpr) | factor | power | atom

inductive KA where
  | args | argsTail (acc : List SExpr)

mutual
/-- the declarative grammar: `G k ts t` — the token list `ts` is a phrase of kind `k` denoting `t` -/
inductive G : K → List Tok → SExpr → Prop
  | expr {xs ys a t} : G .term xs a → G (.exprTail a) ys t → G .expr (xs ++ ys) t
  | etNil {acc} : G (.exprTail acc) [] acc
  | etPlus {acc ys b zs t} : G .term ys b → G (.exprTail (.bin "+" acc b)) zs t → G (.exprTail acc) (plus :: ys ++ zs) t
  | etMinus {acc ys b zs t} : G .term ys b → G (.exprTail (.bin "-" acc b)) zs t → G (.exprTail acc) (minus :: ys ++ zs) t
  | term {xs ys a t} : G .factor xs a → G (.termTail a) ys t → G .term (xs ++ ys) t
  | ttNil {acc} : G (.termTail acc) [] acc
  | ttStar {acc ys b zs t} : G .factor ys b → G (.termTail (.bin "*" acc b)) zs t → G (.termTail acc) (star :: ys ++ zs) t
  | ttSlash {acc ys b zs t} : G .factor ys b → G (.termTail (.bin "/" acc b)) zs t → G (.termTail acc) (slash :: ys ++ zs) t
  | ttDslash {acc ys b zs t} : G .factor ys b → G (.termTail (.bin "//" acc b)) zs t → G (.termTail acc) (dslash :: ys ++ zs) t
  | ttPercent {acc ys b zs t} : G .factor ys b → G (.termTail (.bin "%" acc b)) zs t → G (.termTail acc) (percent :: ys ++ zs) t
  | fNeg {xs a} : G .factor xs a → G .factor (minus :: xs) (.neg a)
  | fPos {xs a} : G .factor xs a → G .factor (plus :: xs) (.pos a)
  | fPow {xs a} : G .power xs a → G .factor xs a
  | pAtom {xs a} : G .atom xs a → G .power xs a
  | pPow {xs a ys b} : G .atom xs a → G .factor ys b → G .power (xs ++ pow :: ys) (.bin "**" a b)
  | aNum {q} : G .atom [num q] (.num q)
  | aName {s} : G .atom [name s] (.name s)
  | aParen {xs t} : G .expr xs t → G .atom (lp :: xs ++ [rp]) t
  | aCall {s xs args} : GA .args xs args → G .atom (name s :: lp :: xs) (.call s args)
inductive GA : KA → List Tok → List SExpr → Prop
  | argsNil : GA .args [rp] []
  | argsCons {xs e ys l} : G .expr xs e → GA (.argsTail [e]) ys l → GA .args (xs ++ ys) l
  | atEnd {acc} : GA (.argsTail acc) [rp] acc
  | atComma {acc xs e ys l} : G .expr xs e → GA (.argsTail (acc ++ [e])) ys l → GA (.argsTail acc) (comma :: xs ++ ys) l
end

/-- the standard reading of a whole token string -/
def Reads (ts : List Tok) (t : SExpr) : Prop := G .expr ts t

/-! what may follow a phrase -/
def afterExpr : Option Tok → Prop
  | none => True | some rp => True | some comma => True | _ => False
def afterTerm (n : Option Tok) : Prop := afterExpr n ∨ n = some plus ∨ n = some minus
def afterFactor (n : Option Tok) : Prop := afterTerm n ∨ n = some star ∨ n = some slash ∨ n = some dslash ∨ n = some percent
def afterAtom (n : Option Tok) : Prop := afterFactor n ∨ n = some pow

def follow : K → Option Tok → Prop
  | .expr, n | .exprTail _, n => afterExpr n
  | .term, n | .termTail _, n => afterTerm n
  | .factor, n | .power, n => afterFactor n
  | .atom, n => afterAtom n

def run : K → Nat → List Tok → Option (SExpr × List Tok)
  | .expr, f, ts => pExpr f ts
  | .exprTail acc, f, ts => pExprTail f acc ts
  | .term, f, ts => pTerm f ts
  | .termTail acc, f, ts => pTermTail f acc ts
  | .factor, f, ts => pFactor f ts
  | .power, f, ts => pPower f ts
  | .atom, f, ts => pAtom f ts

def runA : KA → Nat → List Tok → Option (List SExpr × List Tok)
  | .args, f, ts => pArgs f ts
  | .argsTail acc, f, ts => pArgsTail f acc ts

end Bartiq

namespace Bartiq
open Tok

/-! ### how phrases start -/

def startsAtom : List Tok → Prop
  | num _ :: _ => True
  | name _ :: _ => True
  | lp :: _ => True
  | _ => False

def startsFactor : List Tok → Prop
  | minus :: _ => True
  | plus :: _ => True
  | ts => startsAtom ts

theorem atom_starts {xs a} (h : G .atom xs a) (r : List Tok) : startsAtom (xs ++ r) := by
  cases h <;> simp [startsAtom]

theorem power_starts {xs a} (h : G .power xs a) (r : List Tok) : startsAtom (xs ++ r) := by
  cases h with
  | pAtom h => exact atom_starts h r
  | pPow h _ => rw [List.append_assoc]; exact atom_starts h _

theorem factor_starts {xs a} (h : G .factor xs a) (r : List Tok) : startsFactor (xs ++ r) := by
  cases h with
  | fNeg _ => simp [startsFactor]
  | fPos _ => simp [startsFactor]
  | fPow h =>
    have := power_starts h r
    revert this
    cases hxs : xs ++ r with
    | nil => simp [startsAtom]
    | cons t ts => cases t <;> simp [startsAtom, startsFactor]

theorem term_starts {xs a} (h : G .term xs a) (r : List Tok) : startsFactor (xs ++ r) := by
  cases h with
  | term h1 _ => rw [List.append_assoc]; exact factor_starts h1 _

theorem expr_starts {xs a} (h : G .expr xs a) (r : List Tok) : startsFactor (xs ++ r) := by
  cases h with
  | expr h1 _ => rw [List.append_assoc]; exact term_starts h1 _

/-! ### what follows a tail -/

theorem exprTail_head {acc ys t} (h : G (.exprTail acc) ys t) (r : List Tok) (hr : afterExpr r.head?) :
    afterTerm (ys ++ r).head? := by
  cases h with
  | etNil => exact Or.inl hr
  | etPlus _ _ => simp [afterTerm]
  | etMinus _ _ => simp [afterTerm]

theorem termTail_head {acc ys t} (h : G (.termTail acc) ys t) (r : List Tok) (hr : afterTerm r.head?) :
    afterFactor (ys ++ r).head? := by
  cases h with
  | ttNil => exact Or.inl hr
  | ttStar _ _ => simp [afterFactor]
  | ttSlash _ _ => simp [afterFactor]
  | ttDslash _ _ => simp [afterFactor]
  | ttPercent _ _ => simp [afterFactor]

/-! ### parser equations -/

theorem pExprTail_stop {f acc ts} (h : afterExpr ts.head?) : pExprTail (f + 1) acc ts = some (acc, ts) := by
  match ts, h with
  | [], _ => simp [pExprTail]
  | t :: r, h => cases t <;> simp_all [pExprTail, afterExpr]

theorem pTermTail_stop {f acc ts} (h : afterTerm ts.head?) : pTermTail (f + 1) acc ts = some (acc, ts) := by
  match ts, h with
  | [], _ => simp [pTermTail]
  | t :: r, h => cases t <;> simp_all [pTermTail, afterTerm, afterExpr]

theorem pPower_noPow {f ts a r} (h : pAtom f ts = some (a, r)) (hr : afterFactor r.head?) :
    pPower (f + 1) ts = some (a, r) := by
  simp only [pPower, h]
  match r, hr with
  | [], _ => rfl
  | t :: r', hr => cases t <;> simp_all [afterFactor, afterTerm, afterExpr]

theorem pFactor_of_startsAtom {f ts} (h : startsAtom ts) : pFactor (f + 1) ts = pPower f ts := by
  match ts, h with
  | num _ :: _, _ => simp [pFactor]
  | name _ :: _, _ => simp [pFactor]
  | lp :: _, _ => simp [pFactor]

theorem pAtom_name {f s r} (h : afterAtom r.head?) : pAtom (f + 1) (name s :: r) = some (.name s, r) := by
  match r, h with
  | [], _ => simp [pAtom]
  | t :: r', h => cases t <;> simp_all [pAtom, afterAtom, afterFactor, afterTerm, afterExpr]

theorem pArgs_of_startsFactor {f ts e r} (h : startsFactor ts) (he : pExpr f ts = some (e, r)) :
    pArgs (f + 1) ts = pArgsTail f [e] r := by
  match ts, h with
  | minus :: _, _ => simp [pArgs, he]
  | plus :: _, _ => simp [pArgs, he]
  | num _ :: _, _ => simp [pArgs, he]
  | name _ :: _, _ => simp [pArgs, he]
  | lp :: _, _ => simp [pArgs, he]

end Bartiq

namespace Bartiq
open Tok

/-- fuel (= recursion depth) that suffices for a phrase of kind `k` with `n` tokens is `6 * n + cK k` -/
def cK : K → Nat
  | .atom => 0 | .power => 1 | .factor => 2 | .termTail _ => 1 | .term => 3 | .exprTail _ => 1 | .expr => 4
def cKA : KA → Nat
  | .argsTail _ => 1 | .args => 5

macro "fuel_bound" : tactic =>
  `(tactic| (simp only [cK, cKA, List.length_append, List.length_cons, List.length_nil, List.length_singleton] at *; omega))

theorem fuel_succ {f f0 : Nat} (h : f0 + 1 ≤ f) : ∃ g, f = g + 1 ∧ f0 ≤ g := ⟨f - 1, by omega, by omega⟩

mutual
/-- completeness: a phrase of the grammar followed by an admissible rest is parsed to its tree, leaving the rest,
    for every sufficiently large fuel -/
theorem complete : ∀ {k ts t}, G k ts t → ∀ rest, follow k rest.head? →
    ∃ f0, f0 ≤ 6 * ts.length + cK k ∧ ∀ f, f0 ≤ f → run k f (ts ++ rest) = some (t, rest)
  | _, _, _, .expr (xs := xs) (ys := ys) h1 h2, rest, hf => by
    obtain ⟨f1, b1, e1⟩ := complete h1 (ys ++ rest) (exprTail_head h2 rest hf)
    obtain ⟨f2, b2, e2⟩ := complete h2 rest hf
    refine ⟨max f1 f2 + 1, by fuel_bound, fun f hle => ?_⟩
    obtain ⟨g, rfl, hg⟩ := fuel_succ hle
    have a1 := e1 g (by omega); have a2 := e2 g (by omega)
    simp only [run] at a1 a2 ⊢
    simp [pExpr, List.append_assoc, a1, a2]
  | _, _, _, .etNil, rest, hf => by
    refine ⟨1, by fuel_bound, fun f hle => ?_⟩
    obtain ⟨g, rfl, _⟩ := fuel_succ hle
    simp only [run, List.nil_append]
    exact pExprTail_stop hf
  | _, _, _, .etPlus (ys := ys) (zs := zs) h1 h2, rest, hf => by
    obtain ⟨f1, b1, e1⟩ := complete h1 (zs ++ rest) (exprTail_head h2 rest hf)
    obtain ⟨f2, b2, e2⟩ := complete h2 rest hf
    refine ⟨max f1 f2 + 1, by fuel_bound, fun f hle => ?_⟩
    obtain ⟨g, rfl, hg⟩ := fuel_succ hle
    have a1 := e1 g (by omega); have a2 := e2 g (by omega)
    simp only [run] at a1 a2 ⊢
    simp [pExprTail, List.append_assoc, a1, a2]
  | _, _, _, .etMinus (ys := ys) (zs := zs) h1 h2, rest, hf => by
    obtain ⟨f1, b1, e1⟩ := complete h1 (zs ++ rest) (exprTail_head h2 rest hf)
    obtain ⟨f2, b2, e2⟩ := complete h2 rest hf
    refine ⟨max f1 f2 + 1, by fuel_bound, fun f hle => ?_⟩
    obtain ⟨g, rfl, hg⟩ := fuel_succ hle
    have a1 := e1 g (by omega); have a2 := e2 g (by omega)
    simp only [run] at a1 a2 ⊢
    simp [pExprTail, List.append_assoc, a1, a2]
  | _, _, _, .term (xs := xs) (ys := ys) h1 h2, rest, hf => by
    obtain ⟨f1, b1, e1⟩ := complete h1 (ys ++ rest) (termTail_head h2 rest hf)
    obtain ⟨f2, b2, e2⟩ := complete h2 rest hf
    refine ⟨max f1 f2 + 1, by fuel_bound, fun f hle => ?_⟩
    obtain ⟨g, rfl, hg⟩ := fuel_succ hle
    have a1 := e1 g (by omega); have a2 := e2 g (by omega)
    simp only [run] at a1 a2 ⊢
    simp [pTerm, List.append_assoc, a1, a2]
  | _, _, _, .ttNil, rest, hf => by
    refine ⟨1, by fuel_bound, fun f hle => ?_⟩
    obtain ⟨g, rfl, _⟩ := fuel_succ hle
    simp only [run, List.nil_append]
    exact pTermTail_stop hf
  | _, _, _, .ttStar (ys := ys) (zs := zs) h1 h2, rest, hf => by
    obtain ⟨f1, b1, e1⟩ := complete h1 (zs ++ rest) (termTail_head h2 rest hf)
    obtain ⟨f2, b2, e2⟩ := complete h2 rest hf
    refine ⟨max f1 f2 + 1, by fuel_bound, fun f hle => ?_⟩
    obtain ⟨g, rfl, hg⟩ := fuel_succ hle
    have a1 := e1 g (by omega); have a2 := e2 g (by omega)
    simp only [run] at a1 a2 ⊢
    simp [pTermTail, List.append_assoc, a1, a2]
  | _, _, _, .ttSlash (ys := ys) (zs := zs) h1 h2, rest, hf => by
    obtain ⟨f1, b1, e1⟩ := complete h1 (zs ++ rest) (termTail_head h2 rest hf)
    obtain ⟨f2, b2, e2⟩ := complete h2 rest hf
    refine ⟨max f1 f2 + 1, by fuel_bound, fun f hle => ?_⟩
    obtain ⟨g, rfl, hg⟩ := fuel_succ hle
    have a1 := e1 g (by omega); have a2 := e2 g (by omega)
    simp only [run] at a1 a2 ⊢
    simp [pTermTail, List.append_assoc, a1, a2]
  | _, _, _, .ttDslash (ys := ys) (zs := zs) h1 h2, rest, hf => by
    obtain ⟨f1, b1, e1⟩ := complete h1 (zs ++ rest) (termTail_head h2 rest hf)
    obtain ⟨f2, b2, e2⟩ := complete h2 rest hf
    refine ⟨max f1 f2 + 1, by fuel_bound, fun f hle => ?_⟩
    obtain ⟨g, rfl, hg⟩ := fuel_succ hle
    have a1 := e1 g (by omega); have a2 := e2 g (by omega)
    simp only [run] at a1 a2 ⊢
    simp [pTermTail, List.append_assoc, a1, a2]
  | _, _, _, .ttPercent (ys := ys) (zs := zs) h1 h2, rest, hf => by
    obtain ⟨f1, b1, e1⟩ := complete h1 (zs ++ rest) (termTail_head h2 rest hf)
    obtain ⟨f2, b2, e2⟩ := complete h2 rest hf
    refine ⟨max f1 f2 + 1, by fuel_bound, fun f hle => ?_⟩
    obtain ⟨g, rfl, hg⟩ := fuel_succ hle
    have a1 := e1 g (by omega); have a2 := e2 g (by omega)
    simp only [run] at a1 a2 ⊢
    simp [pTermTail, List.append_assoc, a1, a2]
  | _, _, _, .fNeg h1, rest, hf => by
    obtain ⟨f1, b1, e1⟩ := complete h1 rest hf
    refine ⟨f1 + 1, by fuel_bound, fun f hle => ?_⟩
    obtain ⟨g, rfl, hg⟩ := fuel_succ hle
    have a1 := e1 g hg
    simp only [run] at a1 ⊢
    simp [pFactor, a1]
  | _, _, _, .fPos h1, rest, hf => by
    obtain ⟨f1, b1, e1⟩ := complete h1 rest hf
    refine ⟨f1 + 1, by fuel_bound, fun f hle => ?_⟩
    obtain ⟨g, rfl, hg⟩ := fuel_succ hle
    have a1 := e1 g hg
    simp only [run] at a1 ⊢
    simp [pFactor, a1]
  | _, _, _, .fPow h1, rest, hf => by
    obtain ⟨f1, b1, e1⟩ := complete h1 rest hf
    refine ⟨f1 + 1, by fuel_bound, fun f hle => ?_⟩
    obtain ⟨g, rfl, hg⟩ := fuel_succ hle
    have a1 := e1 g hg
    simp only [run] at a1 ⊢
    rw [pFactor_of_startsAtom (power_starts h1 rest)]; exact a1
  | _, _, _, .pAtom h1, rest, hf => by
    obtain ⟨f1, b1, e1⟩ := complete h1 rest (Or.inl hf)
    refine ⟨f1 + 1, by fuel_bound, fun f hle => ?_⟩
    obtain ⟨g, rfl, hg⟩ := fuel_succ hle
    have a1 := e1 g hg
    simp only [run] at a1 ⊢
    exact pPower_noPow a1 hf
  | _, _, _, .pPow (xs := xs) (ys := ys) h1 h2, rest, hf => by
    obtain ⟨f1, b1, e1⟩ := complete h1 (pow :: ys ++ rest) (Or.inr rfl)
    obtain ⟨f2, b2, e2⟩ := complete h2 rest hf
    refine ⟨max f1 f2 + 1, by fuel_bound, fun f hle => ?_⟩
    obtain ⟨g, rfl, hg⟩ := fuel_succ hle
    have a1 := e1 g (by omega); have a2 := e2 g (by omega)
    simp only [run] at a1 a2 ⊢
    simp only [List.append_assoc, List.cons_append] at a1 ⊢
    simp [pPower, a1, a2]
  | _, _, _, .aNum, rest, _ => by
    refine ⟨1, by fuel_bound, fun f hle => ?_⟩
    obtain ⟨g, rfl, _⟩ := fuel_succ hle
    simp [run, pAtom]
  | _, _, _, .aName, rest, hf => by
    refine ⟨1, by fuel_bound, fun f hle => ?_⟩
    obtain ⟨g, rfl, _⟩ := fuel_succ hle
    simp only [run, List.singleton_append]
    exact pAtom_name hf
  | _, _, _, .aParen (xs := xs) h1, rest, _ => by
    obtain ⟨f1, b1, e1⟩ := complete h1 (rp :: rest) (by simp [follow, afterExpr])
    refine ⟨f1 + 1, by fuel_bound, fun f hle => ?_⟩
    obtain ⟨g, rfl, hg⟩ := fuel_succ hle
    have a1 := e1 g hg
    simp only [run] at a1 ⊢
    simp only [List.cons_append, List.append_assoc, List.singleton_append] at a1 ⊢
    simp [pAtom, a1]
  | _, _, _, .aCall (xs := xs) h1, rest, _ => by
    obtain ⟨f1, b1, e1⟩ := completeA h1 rest
    refine ⟨f1 + 1, by fuel_bound, fun f hle => ?_⟩
    obtain ⟨g, rfl, hg⟩ := fuel_succ hle
    have a1 := e1 g hg
    simp only [runA] at a1
    simp only [run, List.cons_append]
    simp [pAtom, a1]
theorem completeA : ∀ {k ts l}, GA k ts l → ∀ rest,
    ∃ f0, f0 ≤ 6 * ts.length + cKA k ∧ ∀ f, f0 ≤ f → runA k f (ts ++ rest) = some (l, rest)
  | _, _, _, .argsNil, rest => by
    refine ⟨1, by fuel_bound, fun f hle => ?_⟩
    obtain ⟨g, rfl, _⟩ := fuel_succ hle
    simp [runA, pArgs]
  | _, _, _, .argsCons (xs := xs) (ys := ys) h1 h2, rest => by
    have hys : afterExpr (ys ++ rest).head? := by
      cases h2 <;> simp [afterExpr]
    obtain ⟨f1, b1, e1⟩ := complete h1 (ys ++ rest) hys
    obtain ⟨f2, b2, e2⟩ := completeA h2 rest
    refine ⟨max f1 f2 + 1, by fuel_bound, fun f hle => ?_⟩
    obtain ⟨g, rfl, hg⟩ := fuel_succ hle
    have a1 := e1 g (by omega); have a2 := e2 g (by omega)
    simp only [run, runA] at a1 a2 ⊢
    rw [List.append_assoc, pArgs_of_startsFactor (expr_starts h1 _) a1]
    exact a2
  | _, _, _, .atEnd, rest => by
    refine ⟨1, by fuel_bound, fun f hle => ?_⟩
    obtain ⟨g, rfl, _⟩ := fuel_succ hle
    simp [runA, pArgsTail]
  | _, _, _, .atComma (xs := xs) (ys := ys) h1 h2, rest => by
    have hys : afterExpr (ys ++ rest).head? := by
      cases h2 <;> simp [afterExpr]
    obtain ⟨f1, b1, e1⟩ := complete h1 (ys ++ rest) hys
    obtain ⟨f2, b2, e2⟩ := completeA h2 rest
    refine ⟨max f1 f2 + 1, by fuel_bound, fun f hle => ?_⟩
    obtain ⟨g, rfl, hg⟩ := fuel_succ hle
    have a1 := e1 g (by omega); have a2 := e2 g (by omega)
    simp only [run, runA] at a1 a2 ⊢
    simp only [List.cons_append, List.append_assoc] at a1 ⊢
    simp [pArgsTail, a1, a2]
end

/-- **the parser computes the standard reading** of every token string of the grammar, with an explicit fuel bound -/
theorem parser_is_standard_reading {ts t} (h : Reads ts t) :
    ∃ f0, f0 ≤ 6 * ts.length + 4 ∧ ∀ f, f0 ≤ f → pExpr f ts = some (t, []) := by
  have := complete h [] (by simp [follow, afterExpr])
  simpa [run, cK] using this

/-- … in particular with the fuel `parseToks` actually uses: the executable entry point reads every phrase of the grammar -/
theorem parseToks_complete {ts t} (h : Reads ts t) : parseToks ts = some t := by
  obtain ⟨f0, hb, e⟩ := parser_is_standard_reading h
  unfold parseToks
  rw [e (6 * ts.length + 10) (by omega)]

/-- the standard reading is unique (the grammar is unambiguous) -/
theorem reading_unique {ts t t'} (h : Reads ts t) (h' : Reads ts t') : t = t' := by
  have a := parseToks_complete h
  have a' := parseToks_complete h'
  rw [a] at a'
  simpa using a'

end Bartiq
