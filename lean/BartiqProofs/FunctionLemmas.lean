/-
  BartiqProofs.FunctionLemmas — `functions_map` (BartiqModel/Functions.lean): the rewriting `defineFn` reaches every call of
  the named function, and the rewritten expression means the original one read in the interpretation where the name means
  the user's implementation.
-/
import BartiqModel.Functions
import BartiqProofs.ExprLemmas
namespace Bartiq
open Expr
variable {V : Type}

/-- `A` with `I.name` (at the arity of `I.params`) interpreted by the implementation: the body is evaluated, in `A`, in the
    environment that binds the parameters to the argument values -/
def Alg.withFn (A : Alg V) (I : FnImpl) : Alg V :=
  { A with fn := fun g vs =>
      if g = I.name ∧ vs.length = I.params.length then eval A (fun x => Dict.get? (I.params.zip vs) x) I.body else A.fn g vs }

/-- later entries of the dictionary are defined first from the point of view of an earlier body: calls the earlier
    implementation introduces are rewritten by the later steps -/
def Alg.withFns (A : Alg V) : List FnImpl → Alg V
  | [] => A
  | I :: Is => (A.withFns Is).withFn I

theorem defineFnList_length (I : FnImpl) : ∀ es : List Expr, (defineFnList I es).length = es.length
  | [] => rfl
  | _ :: es => by simp [defineFnList, defineFnList_length I es]

theorem evalList_length (A : Alg V) (ρ : Env V) : ∀ (es : List Expr) (vs : List V), evalList A ρ es = some vs → vs.length = es.length
  | [], vs, h => by simp [evalList] at h; subst h; rfl
  | e :: es, vs, h => by
    simp only [evalList] at h
    cases he : eval A ρ e with
    | none => simp [he] at h
    | some x =>
      cases hes : evalList A ρ es with
      | none => simp [he, hes] at h
      | some xs =>
        simp [he, hes] at h; subst h
        simp [evalList_length A ρ es xs hes]

/-- on expressions without `sum_over`/`prod_over`, evaluation is strict in every free name -/
theorem eval_strict (A : Alg V) : ∀ (e : Expr) (ρ : Env V) (x : String), binders e = [] → x ∈ fv e → ρ x = none → eval A ρ e = none := by
  intro e
  induction e using Expr.ind with
  | hnum q => intro ρ x _ hx; simp [fv] at hx
  | hsym s => intro ρ x _ hx h0; simp [fv] at hx; subst hx; simpa [eval] using h0
  | hneg a ih =>
    intro ρ x hb hx h0
    simp only [eval]; rw [ih ρ x (by simpa [binders] using hb) (by simpa [fv] using hx) h0]; rfl
  | hbin op a b iha ihb =>
    intro ρ x hb hx h0
    simp only [binders, List.append_eq_nil_iff] at hb
    simp only [fv, List.mem_append] at hx
    simp only [eval]
    rcases hx with hx | hx
    · rw [iha ρ x hb.1 hx h0]; rfl
    · rw [ihb ρ x hb.2 hx h0]; cases eval A ρ a <;> rfl
  | happ f args ih =>
    intro ρ x hb hx h0
    simp only [eval]
    have : evalList A ρ args = none := by
      simp only [binders] at hb
      simp only [fv] at hx
      clear f
      induction args with
      | nil => simp [fvList] at hx
      | cons a as iha =>
        simp only [bindersList, List.append_eq_nil_iff] at hb
        simp only [fvList, List.mem_append] at hx
        simp only [evalList]
        rcases hx with hx | hx
        · rw [ih a (by simp) ρ x hb.1 hx h0]; rfl
        · rw [iha (fun a ha => ih a (by simp [ha])) hb.2 hx]; cases eval A ρ a <;> rfl
    rw [this]; rfl
  | hbig k body i lo hi _ _ _ => intro ρ x hb; simp [binders] at hb

/-- reading the parameters off the zipped argument list -/
theorem under_zip (A : Alg V) (ρ : Env V) : ∀ (ps : List String) (ts : List Expr) (vs : List V), ps.length = ts.length →
    evalList A ρ ts = some vs → ∀ x ∈ ps, under A ρ (Dict.get? (ps.zip ts)) x = Dict.get? (ps.zip vs) x
  | [], _, _, _, _, x, hx => by simp at hx
  | p :: ps, [], _, hl, _, _, _ => by simp at hl
  | p :: ps, t :: ts, vs, hl, hev, x, hx => by
    simp only [evalList] at hev
    cases het : eval A ρ t with
    | none => simp [het] at hev
    | some v =>
      cases hets : evalList A ρ ts with
      | none => simp [het, hets] at hev
      | some vs' =>
        simp [het, hets] at hev; subst hev
        by_cases hpx : p = x
        · subst hpx; simp [under, Dict.get?, het]
        · have hx' : x ∈ ps := by
            rcases List.mem_cons.mp hx with h | h
            · exact absurd h.symm hpx
            · exact h
          have := under_zip A ρ ps ts vs' (by simpa using hl) hets x hx'
          simpa [under, Dict.get?, hpx] using this

/-- an undefined argument makes its parameter undefined -/
theorem under_zip_none (A : Alg V) (ρ : Env V) : ∀ (ps : List String) (ts : List Expr), ps.length = ts.length → ps.Nodup →
    evalList A ρ ts = none → ∃ x ∈ ps, under A ρ (Dict.get? (ps.zip ts)) x = none
  | [], [], _, _, h => by simp [evalList] at h
  | [], _ :: _, hl, _, _ => by simp at hl
  | _ :: _, [], hl, _, _ => by simp at hl
  | p :: ps, t :: ts, hl, hnd, hev => by
    simp only [evalList] at hev
    cases het : eval A ρ t with
    | none => exact ⟨p, by simp, by simp [under, Dict.get?, het]⟩
    | some v =>
      have hets : evalList A ρ ts = none := by
        cases h : evalList A ρ ts with
        | none => rfl
        | some _ => simp [het, h] at hev
      obtain ⟨x, hx, hu⟩ := under_zip_none A ρ ps ts (by simpa using hl) (List.nodup_cons.mp hnd).2 hets
      have hpx : p ≠ x := fun h => (List.nodup_cons.mp hnd).1 (h ▸ hx)
      exact ⟨x, by simp [hx], by simpa [under, Dict.get?, hpx] using hu⟩

/-- hypotheses on an implementation: a closed formula in its parameters, which it all uses, without iterators -/
structure FnImpl.Plain (I : FnImpl) : Prop where
  noBinders : binders I.body = []
  closed : ∀ x ∈ fv I.body, x ∈ I.params
  usesAll : ∀ p ∈ I.params, p ∈ fv I.body
  distinct : I.params.Nodup

mutual
/-- **functions_map is interpretation**: the rewritten expression has, in every interpretation `A` and environment, exactly
    the value (or undefinedness) of the original expression read with the name interpreted by the implementation -/
theorem eval_defineFn (A : Alg V) (I : FnImpl) (hI : I.Plain) : ∀ (e : Expr) (ρ : Env V),
    eval A ρ (defineFn I e) = eval (A.withFn I) ρ e
  | num _, _ => rfl
  | sym _, _ => rfl
  | neg a, ρ => by simp only [defineFn, eval]; rw [eval_defineFn A I hI a ρ]; rfl
  | bin _ a b, ρ => by simp only [defineFn, eval]; rw [eval_defineFn A I hI a ρ, eval_defineFn A I hI b ρ]; rfl
  | big _ body i lo hi, ρ => by
    simp only [defineFn, eval]
    rw [eval_defineFn A I hI lo ρ, eval_defineFn A I hI hi ρ]
    have : (fun j : Int => eval A (ρ.update i (A.lit (j : Rat))) (defineFn I body)) =
        (fun j : Int => eval (A.withFn I) (ρ.update i ((A.withFn I).lit (j : Rat))) body) := by
      funext j; exact eval_defineFn A I hI body _
    rw [this]; rfl
  | app g args, ρ => by
    have ihl := evalList_defineFn A I hI args ρ
    simp only [defineFn]
    by_cases hc : g = I.name ∧ (defineFnList I args).length = I.params.length
    · simp only [hc, and_self, if_true]
      rw [eval_subst A _ ρ _ (noCapture_of_no_binders hI.noBinders)]
      simp only [eval]
      rw [← ihl]
      cases hev : evalList A ρ (defineFnList I args) with
      | some vs =>
        have hlen := evalList_length A ρ _ vs hev
        simp only [Option.bind_some, Alg.withFn, hlen, hc.2, and_self, if_true]
        apply eval_congr A
        intro x hx
        exact under_zip A ρ I.params _ vs hc.2.symm hev x (hI.closed x hx)
      | none =>
        obtain ⟨x, hx, hu⟩ := under_zip_none A ρ I.params _ hc.2.symm hI.distinct hev
        rw [eval_strict A I.body _ x hI.noBinders (hI.usesAll x hx) hu]; rfl
    · simp only [hc, if_false, eval]
      rw [← ihl]
      cases hev : evalList A ρ (defineFnList I args) with
      | none => rfl
      | some vs =>
        have hlen := evalList_length A ρ _ vs hev
        have : ¬ (g = I.name ∧ vs.length = I.params.length) := by rw [hlen]; exact hc
        simp [Alg.withFn, this]
theorem evalList_defineFn (A : Alg V) (I : FnImpl) (hI : I.Plain) : ∀ (es : List Expr) (ρ : Env V),
    evalList A ρ (defineFnList I es) = evalList (A.withFn I) ρ es
  | [], _ => rfl
  | e :: es, ρ => by simp only [defineFnList, evalList]; rw [eval_defineFn A I hI e ρ, evalList_defineFn A I hI es ρ]
end

/-- several functions, applied in dictionary order -/
theorem eval_defineFns (Is : List FnImpl) (hIs : ∀ I ∈ Is, I.Plain) : ∀ (A : Alg V) (e : Expr) (ρ : Env V),
    eval A ρ (defineFns Is e) = eval (A.withFns Is) ρ e := by
  induction Is with
  | nil => intro A e ρ; rfl
  | cons I Is ih =>
    intro A e ρ
    have : defineFns (I :: Is) e = defineFns Is (defineFn I e) := rfl
    rw [this, ih (fun J hJ => hIs J (by simp [hJ])) A (defineFn I e) ρ]
    exact eval_defineFn (A.withFns Is) I (hIs I (by simp)) e ρ

/-! ### no call is left -/

mutual
theorem heads_substF : ∀ (e : Expr) (σ : Subst) (h : String), h ∈ heads (substF σ e) →
    h ∈ heads e ∨ ∃ x t, σ x = some t ∧ h ∈ heads t
  | num _, _, _, hh => by simp [substF, heads] at hh
  | sym s, σ, h, hh => by
    simp only [substF] at hh
    cases hs : σ s with
    | none => simp [hs, heads] at hh
    | some t => simp only [hs] at hh; exact Or.inr ⟨s, t, hs, hh⟩
  | neg a, σ, h, hh => by
    simp only [substF, heads] at hh
    simpa [heads] using heads_substF a σ h hh
  | bin _ a b, σ, h, hh => by
    simp only [substF, heads, List.mem_append] at hh
    rcases hh with hh | hh
    · rcases heads_substF a σ h hh with h1 | h1
      · exact Or.inl (by simp [heads, h1])
      · exact Or.inr h1
    · rcases heads_substF b σ h hh with h1 | h1
      · exact Or.inl (by simp [heads, h1])
      · exact Or.inr h1
  | app f args, σ, h, hh => by
    simp only [substF, heads, List.mem_cons] at hh
    rcases hh with hh | hh
    · exact Or.inl (by simp [heads, hh])
    · rcases headsList_substF args σ h hh with h1 | h1
      · exact Or.inl (by simp [heads, h1])
      · exact Or.inr h1
  | big _ body i lo hi, σ, h, hh => by
    simp only [substF, heads, List.mem_append] at hh
    rcases hh with (hh | hh) | hh
    · rcases heads_substF body (σ.erase i) h hh with h1 | ⟨x, t, hx, ht⟩
      · exact Or.inl (by simp [heads, h1])
      · refine Or.inr ⟨x, t, ?_, ht⟩
        unfold Subst.erase at hx
        by_cases hxi : x = i
        · simp [hxi] at hx
        · simpa [hxi] using hx
    · rcases heads_substF lo σ h hh with h1 | h1
      · exact Or.inl (by simp [heads, h1])
      · exact Or.inr h1
    · rcases heads_substF hi σ h hh with h1 | h1
      · exact Or.inl (by simp [heads, h1])
      · exact Or.inr h1
theorem headsList_substF : ∀ (es : List Expr) (σ : Subst) (h : String), h ∈ headsList (substFList σ es) →
    h ∈ headsList es ∨ ∃ x t, σ x = some t ∧ h ∈ heads t
  | [], _, _, hh => by simp [substFList, headsList] at hh
  | e :: es, σ, h, hh => by
    simp only [substFList, headsList, List.mem_append] at hh
    rcases hh with hh | hh
    · rcases heads_substF e σ h hh with h1 | h1
      · exact Or.inl (by simp [headsList, h1])
      · exact Or.inr h1
    · rcases headsList_substF es σ h hh with h1 | h1
      · exact Or.inl (by simp [headsList, h1])
      · exact Or.inr h1
end

mutual
/-- every call of the name has the arity of the implementation -/
def arityOK (I : FnImpl) : Expr → Bool
  | num _ => true
  | sym _ => true
  | neg a => arityOK I a
  | bin _ a b => arityOK I a && arityOK I b
  | app g args => (g != I.name || args.length == I.params.length) && arityOKList I args
  | big _ body _ lo hi => arityOK I body && arityOK I lo && arityOK I hi
def arityOKList (I : FnImpl) : List Expr → Bool
  | [] => true
  | a :: as => arityOK I a && arityOKList I as
end

theorem get?_zip_mem {α : Type} : ∀ (ps : List String) (ts : List α) (x : String) (t : α), Dict.get? (ps.zip ts) x = some t → t ∈ ts
  | [], _, _, _, h => by simp at h
  | _ :: _, [], _, _, h => by simp at h
  | p :: ps, t' :: ts, x, t, h => by
    simp only [List.zip_cons_cons, Dict.get?] at h
    by_cases hp : p = x
    · simp [hp] at h; simp [h]
    · simp only [hp, if_false] at h; exact List.mem_cons_of_mem _ (get?_zip_mem ps ts x t h)

theorem mem_headsList_of_mem {t : Expr} {h : String} : ∀ {ts : List Expr}, t ∈ ts → h ∈ heads t → h ∈ headsList ts
  | [], ht, _ => by simp at ht
  | a :: as, ht, hh => by
    simp only [headsList, List.mem_append]
    rcases List.mem_cons.mp ht with rfl | ht
    · exact Or.inl hh
    · exact Or.inr (mem_headsList_of_mem ht hh)

mutual
/-- **the implementation reaches every call**: nested in itself, inside other functions, inside sums — nothing named
    `I.name` is left (provided the body does not call the name again and every call has the right number of arguments) -/
theorem defineFn_no_calls (I : FnImpl) (hb : I.name ∉ heads I.body) : ∀ (e : Expr), arityOK I e = true →
    I.name ∉ heads (defineFn I e)
  | num _, _ => by simp [defineFn, heads]
  | sym _, _ => by simp [defineFn, heads]
  | neg a, h => by simp only [arityOK] at h; simpa [defineFn, heads] using defineFn_no_calls I hb a h
  | bin _ a b, h => by
    simp only [arityOK, Bool.and_eq_true] at h
    simp only [defineFn, heads, List.mem_append, not_or]
    exact ⟨defineFn_no_calls I hb a h.1, defineFn_no_calls I hb b h.2⟩
  | big _ body _ lo hi, h => by
    simp only [arityOK, Bool.and_eq_true] at h
    simp only [defineFn, heads, List.mem_append, not_or]
    exact ⟨⟨defineFn_no_calls I hb body h.1.1, defineFn_no_calls I hb lo h.1.2⟩, defineFn_no_calls I hb hi h.2⟩
  | app g args, h => by
    simp only [arityOK, Bool.and_eq_true, Bool.or_eq_true, bne_iff_ne, ne_eq, beq_iff_eq] at h
    have ihl := defineFnList_no_calls I hb args h.2
    simp only [defineFn]
    by_cases hc : g = I.name ∧ (defineFnList I args).length = I.params.length
    · simp only [hc, and_self, if_true]
      intro hin
      rcases heads_substF I.body _ _ hin with h1 | ⟨x, t, hx, ht⟩
      · exact hb h1
      · exact ihl (mem_headsList_of_mem (get?_zip_mem _ _ x t hx) ht)
    · simp only [hc, if_false, heads, List.mem_cons, not_or]
      refine ⟨?_, ihl⟩
      intro hg
      apply hc
      refine ⟨hg.symm, ?_⟩
      rw [defineFnList_length]
      rcases h.1 with h1 | h1
      · exact absurd hg.symm h1
      · exact h1
theorem defineFnList_no_calls (I : FnImpl) (hb : I.name ∉ heads I.body) : ∀ (es : List Expr), arityOKList I es = true →
    I.name ∉ headsList (defineFnList I es)
  | [], _ => by simp [defineFnList, headsList]
  | e :: es, h => by
    simp only [arityOKList, Bool.and_eq_true] at h
    simp only [defineFnList, headsList, List.mem_append, not_or]
    exact ⟨defineFn_no_calls I hb e h.1, defineFnList_no_calls I hb es h.2⟩
end

end Bartiq
