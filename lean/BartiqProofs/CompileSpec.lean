/-
  Spec lemmas for `compile` / `compileChildren`: a successful run exposes all its intermediate values.
  Every property theorem about compilation starts from these.
-/
import BartiqModel.Compile
import BartiqProofs.EvaluateLemmas
namespace Bartiq

/-- everything a successful `compile` of a node went through -/
structure CompileTrace (C : Comparator) (inputs : Dict Expr) (path : String) (r : Routine) (c : CRoutine) where
  lv : Dict Expr
  nc : List Constraint
  upd : PUpdate
  pm2 : PTree
  ccs : List CRoutine
  res : List Resource
  rep' : Option Repetition
  hlv : compileLocalVariables r.localVars inputs = .ok lv
  hnc : evaluateConstraints C r.constraints (Dict.merge lv inputs) path = .ok nc
  hupd : paramTreeFromCompiledPorts (connectionsFrom r.conns none)
          (evaluatePorts (Port.portsOf r.ports [.input, .through]) (pmInit lv inputs r.linked r.children).self) = .ok upd
  hch : compileChildren C r.conns path ((pmInit lv inputs r.linked r.children).mergeUpd upd) r.children = .ok (pm2, ccs)
  hrep : repStep r.rep r.resources ccs (Dict.merge pm2.self (childrenVariables ccs)) = .ok (res, rep')
  hc : c = finishNode r.name r.type r.inputParams inputs r.ports r.conns r.childrenOrder nc
          (evaluatePorts (Port.portsOf r.ports [.input, .through]) (pmInit lv inputs r.linked r.children).self)
          (Dict.merge pm2.self (childrenVariables ccs)) res rep' ccs

theorem compile_trace {C : Comparator} {inputs : Dict Expr} {path : String} {r : Routine} {c : CRoutine}
    (h : compile C inputs path r = .ok c) : Nonempty (CompileTrace C inputs path r c) := by
  obtain ⟨name, ty, ips, lvs, lks, ps, rs, cs, rep, cons, ch, ord⟩ := r
  simp only [compile] at h
  obtain ⟨lv, hlv, h⟩ := Except.bind_ok h
  obtain ⟨nc, hnc, h⟩ := Except.bind_ok h
  obtain ⟨upd, hupd, h⟩ := Except.bind_ok h
  obtain ⟨⟨pm2, ccs⟩, hch, h⟩ := Except.bind_ok h
  obtain ⟨⟨res, rep'⟩, hrep, h⟩ := Except.bind_ok h
  simp only [pure, Except.pure, Except.ok.injEq] at h
  exact ⟨⟨lv, nc, upd, pm2, ccs, res, rep', hlv, hnc, hupd, hch, hrep, h.symm⟩⟩

theorem compileChildren_nil {C : Comparator} {conns : List (Endpoint × Endpoint)} {path : String} {pm pm' : PTree} {ccs : List CRoutine}
    (h : compileChildren C conns path pm [] = .ok (pm', ccs)) : pm' = pm ∧ ccs = [] := by
  simp only [compileChildren, pure, Except.pure, Except.ok.injEq, Prod.mk.injEq] at h
  exact ⟨h.1.symm, h.2.symm⟩

theorem compileChildren_cons {C : Comparator} {conns : List (Endpoint × Endpoint)} {path : String} {pm pm' : PTree}
    {c : Routine} {cs : List Routine} {ccs : List CRoutine}
    (h : compileChildren C conns path pm (c :: cs) = .ok (pm', ccs)) :
    ∃ cc upd ccs', compile C ((pm.kids.get? c.name).getD []) (path ++ "." ++ c.name) c = .ok cc ∧
      paramTreeFromCompiledPorts (connectionsFrom conns (some c.name)) cc.ports = .ok upd ∧
      compileChildren C conns path (pm.mergeUpd upd) cs = .ok (pm', ccs') ∧ ccs = cc :: ccs' := by
  simp only [compileChildren] at h
  obtain ⟨cc, hcc, h⟩ := Except.bind_ok h
  obtain ⟨upd, hupd, h⟩ := Except.bind_ok h
  obtain ⟨⟨pm'', ccs'⟩, hrest, h⟩ := Except.bind_ok h
  simp only [pure, Except.pure, Except.ok.injEq, Prod.mk.injEq] at h
  exact ⟨cc, upd, ccs', hcc, hupd, by rw [← h.1]; exact hrest, h.2.symm⟩

/-! ### simple facts about the pieces -/

theorem evaluatePorts_shape (ps : List Port) (σ : Dict Expr) :
    (evaluatePorts ps σ).map (fun p => (p.name, p.dir)) = ps.map (fun p => (p.name, p.dir)) := by
  simp [evaluatePorts, List.map_map, Function.comp_def]

theorem evaluateResources_shape (rs : List Resource) (σ : Dict Expr) :
    (evaluateResources rs σ).map (fun r => (r.name, r.ty)) = rs.map (fun r => (r.name, r.ty)) := by
  simp [evaluateResources, List.map_map, Function.comp_def]

theorem portsOf_evaluatePorts (ps : List Port) (σ : Dict Expr) (dirs : List Dir) :
    Port.portsOf (evaluatePorts ps σ) dirs = evaluatePorts (Port.portsOf ps dirs) σ := by
  unfold Port.portsOf evaluatePorts
  rw [List.filter_map]
  rfl

end Bartiq
