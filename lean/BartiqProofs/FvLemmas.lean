/-
  Free symbols of substituted expressions.
-/
import BartiqProofs.ExprLemmas
namespace Bartiq
namespace Expr

mutual
/-- a free symbol of a substituted expression is either an un-replaced free symbol of the original, or comes from the value
    that replaced one of them -/
theorem fv_substF : ∀ (e : Expr) (σ : Subst) (x : String), x ∈ fv (substF σ e) →
    (x ∈ fv e ∧ σ x = none) ∨ (∃ y t, y ∈ fv e ∧ σ y = some t ∧ x ∈ fv t)
  | num _, _, _, h => by simp [substF, fv] at h
  | sym s, σ, x, h => by
      simp only [substF] at h
      cases hs : σ s with
      | none => rw [hs] at h; simp only [fv, List.mem_singleton] at h; subst h; exact Or.inl ⟨by simp [fv], hs⟩
      | some t => rw [hs] at h; exact Or.inr ⟨s, t, by simp [fv], hs, h⟩
  | neg a, σ, x, h => by
      simp only [substF, fv] at h
      rcases fv_substF a σ x h with h | ⟨y, t, hy, hσ, hx⟩
      · exact Or.inl (by simpa [fv] using h)
      · exact Or.inr ⟨y, t, by simpa [fv] using hy, hσ, hx⟩
  | bin _ a b, σ, x, h => by
      simp only [substF, fv, List.mem_append] at h
      rcases h with h | h
      · rcases fv_substF a σ x h with h | ⟨y, t, hy, hσ, hx⟩
        · exact Or.inl ⟨by simp [fv, h.1], h.2⟩
        · exact Or.inr ⟨y, t, by simp [fv, hy], hσ, hx⟩
      · rcases fv_substF b σ x h with h | ⟨y, t, hy, hσ, hx⟩
        · exact Or.inl ⟨by simp [fv, h.1], h.2⟩
        · exact Or.inr ⟨y, t, by simp [fv, hy], hσ, hx⟩
  | app _ args, σ, x, h => by
      simp only [substF, fv] at h
      rcases fvList_substF args σ x h with h | ⟨y, t, hy, hσ, hx⟩
      · exact Or.inl (by simpa [fv] using h)
      · exact Or.inr ⟨y, t, by simpa [fv] using hy, hσ, hx⟩
  | big _ body i lo hi, σ, x, h => by
      simp only [substF, fv, List.mem_append, List.mem_filter, decide_eq_true_eq] at h
      rcases h with (⟨h, hxi⟩ | h) | h
      · rcases fv_substF body (σ.erase i) x h with ⟨h1, h2⟩ | ⟨y, t, hy, hσ, hx⟩
        · left
          refine ⟨by simp [fv, h1, hxi], ?_⟩
          simpa [Subst.erase, hxi] using h2
        · right
          have hyi : y ≠ i := by
            intro e; subst e; simp [Subst.erase] at hσ
          refine ⟨y, t, by simp [fv, hy, hyi], ?_, hx⟩
          simpa [Subst.erase, hyi] using hσ
      · rcases fv_substF lo σ x h with h | ⟨y, t, hy, hσ, hx⟩
        · exact Or.inl ⟨by simp [fv, h.1], h.2⟩
        · exact Or.inr ⟨y, t, by simp [fv, hy], hσ, hx⟩
      · rcases fv_substF hi σ x h with h | ⟨y, t, hy, hσ, hx⟩
        · exact Or.inl ⟨by simp [fv, h.1], h.2⟩
        · exact Or.inr ⟨y, t, by simp [fv, hy], hσ, hx⟩
theorem fvList_substF : ∀ (es : List Expr) (σ : Subst) (x : String), x ∈ fvList (substFList σ es) →
    (x ∈ fvList es ∧ σ x = none) ∨ (∃ y t, y ∈ fvList es ∧ σ y = some t ∧ x ∈ fv t)
  | [], _, _, h => by simp [substFList, fvList] at h
  | a :: as, σ, x, h => by
      simp only [substFList, fvList, List.mem_append] at h
      rcases h with h | h
      · rcases fv_substF a σ x h with h | ⟨y, t, hy, hσ, hx⟩
        · exact Or.inl ⟨by simp [fvList, h.1], h.2⟩
        · exact Or.inr ⟨y, t, by simp [fvList, hy], hσ, hx⟩
      · rcases fvList_substF as σ x h with h | ⟨y, t, hy, hσ, hx⟩
        · exact Or.inl ⟨by simp [fvList, h.1], h.2⟩
        · exact Or.inr ⟨y, t, by simp [fvList, hy], hσ, hx⟩
end

theorem Dict.get?_some_mem {α : Type} (d : Dict α) (k : String) (v : α) (h : d.get? k = some v) : (k, v) ∈ d := by
  induction d with
  | nil => simp at h
  | cons y ys ih =>
    rw [Dict.get?_cons] at h
    by_cases hy : y.1 = k
    · simp only [hy, if_true, Option.some.injEq] at h
      obtain ⟨a, b⟩ := y
      simp only at hy h; subst hy h; simp
    · simp only [hy, if_false] at h; exact List.mem_cons_of_mem _ (ih h)

/-- **closure step**: if every value of the scope only mentions symbols of `G`, and every symbol of `e` is either a key of the
    scope or already in `G`, then the substituted expression only mentions symbols of `G` -/
theorem fv_subst_closed (d : Dict Expr) (e : Expr) (G : List String)
    (hd : ∀ kv ∈ d, ∀ x ∈ fv kv.2, x ∈ G) (he : ∀ x ∈ fv e, d.get? x ≠ none ∨ x ∈ G) :
    ∀ x ∈ fv (subst d e), x ∈ G := by
  intro x hx
  rcases fv_substF e d.get? x hx with ⟨h1, h2⟩ | ⟨y, t, _, hσ, hxt⟩
  · rcases he x h1 with h | h
    · exact absurd h2 h
    · exact h
  · exact hd (y, t) (Dict.get?_some_mem d y t hσ) x hxt

end Expr
end Bartiq
