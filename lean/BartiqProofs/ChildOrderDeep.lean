/-
  BartiqProofs.ChildOrderDeep — re-listing the children at EVERY level of the hierarchy (each time in an order that respects
  the wiring) changes nothing but the order in which compiled children are listed.
-/
import BartiqProofs.ChildOrderSort
namespace Bartiq
open Dict

mutual
/-- `r'` is `r` with the children re-listed, at every level, in another order that respects the wiring (and possibly another
    recorded `children_order`); the side conditions verification provides are part of the relation: distinct child names, every
    port the target of at most one connection -/
def RSim : Routine → Routine → Prop
  | ⟨n, ty, ips, lvs, lks, ps, rs, cs, rep, cons, ch, _⟩, r' =>
    r'.name = n ∧ r'.type = ty ∧ r'.inputParams = ips ∧ r'.localVars = lvs ∧ r'.linked = lks ∧ r'.ports = ps ∧ r'.resources = rs ∧
    r'.conns = cs ∧ r'.rep = rep ∧ r'.constraints = cons ∧ (ch.map (·.name)).Nodup ∧ TargetsDistinct cs ∧ ValidOrder cs ch ∧
    ValidOrder cs r'.children ∧ ∃ mid, RSimList ch mid ∧ mid.Perm r'.children
def RSimList : List Routine → List Routine → Prop
  | [], l' => l' = []
  | a :: l, l' => ∃ a' l'', l' = a' :: l'' ∧ RSim a a' ∧ RSimList l l''
end

mutual
/-- compiled routines equal up to the order in which children are listed (and the recorded `children_order`), at every level -/
def CSim : CRoutine → CRoutine → Prop
  | ⟨n, ty, ips, ps, rs, cs, rep, cons, ch, _⟩, c' =>
    c'.name = n ∧ c'.type = ty ∧ c'.inputParams = ips ∧ c'.ports = ps ∧ c'.resources = rs ∧ c'.conns = cs ∧ c'.rep = rep ∧
    c'.constraints = cons ∧ ∃ mid, CSimList ch mid ∧ mid.Perm c'.children
def CSimList : List CRoutine → List CRoutine → Prop
  | [], l' => l' = []
  | a :: l, l' => ∃ a' l'', l' = a' :: l'' ∧ CSim a a' ∧ CSimList l l''
end

mutual
/-- the references `child.resource` are unambiguous at every level of a compiled routine -/
def CRoutine.RefsOK : CRoutine → Prop
  | ⟨_, _, _, _, _, _, _, _, ch, _⟩ => NodupKeys (cvList ch) ∧ CRoutine.RefsOKList ch
def CRoutine.RefsOKList : List CRoutine → Prop
  | [] => True
  | c :: cs => c.RefsOK ∧ CRoutine.RefsOKList cs
end

theorem RSim.name {r r' : Routine} (h : RSim r r') : r'.name = r.name := by
  obtain ⟨n, ty, ips, lvs, lks, ps, rs, cs, rep, cons, ch, ord⟩ := r
  exact h.1

theorem RSimList.names : ∀ {l l' : List Routine}, RSimList l l' → l'.map (·.name) = l.map (·.name)
  | [], _, h => by simp only [RSimList] at h; subst h; rfl
  | a :: l, l', h => by
    simp only [RSimList] at h
    obtain ⟨a', l'', rfl, ha, hl⟩ := h
    simp [ha.name, RSimList.names hl]

theorem CSim.fields {c c' : CRoutine} (h : CSim c c') : c'.name = c.name ∧ c'.ports = c.ports ∧ c'.resources = c.resources := by
  obtain ⟨n, ty, ips, ps, rs, cs, rep, cons, ch, ord⟩ := c
  exact ⟨h.1, h.2.2.2.1, h.2.2.2.2.1⟩

theorem CSimList.cvList : ∀ {l l' : List CRoutine}, CSimList l l' → cvList l' = cvList l
  | [], _, h => by simp only [CSimList] at h; subst h; rfl
  | a :: l, l', h => by
    simp only [CSimList] at h
    obtain ⟨a', l'', rfl, ha, hl⟩ := h
    obtain ⟨h1, _, h3⟩ := ha.fields
    simp only [Bartiq.cvList, List.flatMap_cons] at *
    rw [h1, h3]
    have := CSimList.cvList hl
    simp only [Bartiq.cvList] at this
    rw [this]

theorem CSimList.childSigs : ∀ {l l' : List CRoutine}, CSimList l l' → childSigs l' = childSigs l
  | [], _, h => by simp only [CSimList] at h; subst h; rfl
  | a :: l, l', h => by
    simp only [CSimList] at h
    obtain ⟨a', l'', rfl, ha, hl⟩ := h
    obtain ⟨h1, _, h3⟩ := ha.fields
    have := CSimList.childSigs hl
    simp only [Bartiq.childSigs, List.map_cons] at *
    rw [h1, h3, this]

theorem childrenVariables_eq_of_cvList {l l' : List CRoutine} (h : cvList l' = cvList l) : childrenVariables l' = childrenVariables l := by
  unfold childrenVariables
  unfold cvList at h
  rw [h]

theorem validOrder_iff_names (conns : List (Endpoint × Endpoint)) : ∀ (l l' : List Routine), l'.map (·.name) = l.map (·.name) →
    ValidOrder conns l → ValidOrder conns l'
  | [], l', h, _ => by
    cases l' with
    | nil => trivial
    | cons _ _ => simp at h
  | a :: l, l', h, hv => by
    cases l' with
    | nil => simp at h
    | cons a' l'' =>
      simp only [List.map_cons, List.cons.injEq] at h
      simp only [ValidOrder] at hv ⊢
      refine ⟨?_, validOrder_iff_names conns l l'' h.2 hv.2⟩
      intro b hb
      have : b.name ∈ l.map (·.name) := by rw [← h.2]; exact List.mem_map_of_mem hb
      obtain ⟨b0, hb0, hn⟩ := List.mem_map.mp this
      rw [h.1, ← hn]
      exact hv.1 b0 hb0

/-- the recorded `children_order` is only copied into the result -/
theorem compile_ord (C : Comparator) (σ : Dict Expr) (path : String) (name : String) (ty : Option String) (ips : List String)
    (lvs : Dict Expr) (lks : Dict (List (String × String))) (ps : List Port) (rs : List Resource) (cs : List (Endpoint × Endpoint))
    (rep : Option Repetition) (cons : List Constraint) (ch : List Routine) (ord ord' : List String) (c : CRoutine)
    (h : compile C σ path ⟨name, ty, ips, lvs, lks, ps, rs, cs, rep, cons, ch, ord⟩ = .ok c) :
    compile C σ path ⟨name, ty, ips, lvs, lks, ps, rs, cs, rep, cons, ch, ord'⟩ = .ok { c with childrenOrder := ord' } := by
  obtain ⟨⟨lv, nc, upd, pm2, ccs, res, rep', hlv, hnc, hupd, hch, hrep, hc⟩⟩ := compile_trace h
  simp only at hlv hnc hupd hch hrep hc
  subst hc
  simp only [compile, hlv, hnc, hupd, hch, hrep, bind, Except.bind, pure, Except.pure]
  rfl

mutual
/-- **re-listing children at every level leaves the compiled hierarchy unchanged up to the listing of compiled children** -/
theorem compile_sim (C : Comparator) : ∀ (r r' : Routine) (σ : Dict Expr) (path : String) (c : CRoutine),
    RSim r r' → NodupKeys σ → compile C σ path r = .ok c → c.RefsOK → ∃ c', compile C σ path r' = .ok c' ∧ CSim c c'
  | ⟨n, ty, ips, lvs, lks, ps, rs, cs, rep, cons, ch, ord⟩, r', σ, path, c, hs, hσ, h, href => by
    obtain ⟨n', ty', ips', lvs', lks', ps', rs', cs', rep', cons', ch', ord'⟩ := r'
    simp only [RSim] at hs
    obtain ⟨rfl, rfl, rfl, rfl, rfl, rfl, rfl, rfl, rfl, rfl, hnd, htd, hv, hv', mid, hmid, hperm⟩ := hs
    obtain ⟨⟨lv, nc, upd, pm2, ccs, res, rp, hlv, hnc, hupd, hch, hrep, hc⟩⟩ := compile_trace h
    simp only at hlv hnc hupd hch hrep hc
    subst hc
    simp only [CRoutine.RefsOK, finishNode] at href
    have hlvnd := compileLocalVariables_nodup hlv
    have hnames := RSimList.names hmid
    -- step A: the children replaced by their re-listed versions, in the same order
    have hpmI : pmInit lv σ lks' mid = pmInit lv σ lks' ch := by
      unfold pmInit
      have : (mid.map fun c => (c.name, ([] : Dict Expr))) = (ch.map fun c => (c.name, ([] : Dict Expr))) := by
        have := congrArg (List.map fun n : String => (n, ([] : Dict Expr))) hnames
        simpa [List.map_map, Function.comp_def] using this
      rw [this]
    have hwf : PWF (pmInit lv σ lks' ch) := pmInit_congr hlvnd (DEq.refl hσ) lks' ch
    obtain ⟨out', hch', hsim⟩ := compileChildren_sim C ch mid cs' path _ pm2 ccs hmid (hwf.mergeUpd upd) hch href.2
    have hcv := CSimList.cvList hsim
    have hcvars := childrenVariables_eq_of_cvList hcv
    have hsigs := CSimList.childSigs hsim
    have hrepA : repStep rep' rs' out' (Dict.merge pm2.self (childrenVariables out')) = .ok (res, rp) := by
      rw [hcvars]
      cases rep' with
      | none => simpa [repStep] using hrep
      | some r0 => simp only [repStep, hsigs] at hrep ⊢; exact hrep
    have hA : compile C σ path ⟨n', ty', ips', lvs', lks', ps', rs', cs', rep', cons', mid, ord⟩ =
        .ok (finishNode n' ty' ips' σ ps' cs' ord nc (evaluatePorts (Port.portsOf ps' [.input, .through]) (pmInit lv σ lks' ch).self)
          (Dict.merge pm2.self (childrenVariables ccs)) res rp out') := by
      rw [hcvars] at hrepA
      simp only [compile, hlv, hnc, hpmI, hupd, hch', hcvars, hrepA, bind, Except.bind, pure, Except.pure]
    -- step B: the permutation at this node
    have hndmid : (mid.map (·.name)).Nodup := by rw [hnames]; exact hnd
    have hvmid : ValidOrder cs' mid := validOrder_iff_names cs' ch mid hnames hv
    obtain ⟨ccs', hB, hpB⟩ := compile_children_order C n' ty' ips' lvs' lks' ps' rs' cs' rep' cons' ord mid ch' σ path hσ hperm hndmid htd
      hvmid hv' _ hA (by simp only [finishNode]; rw [hcv]; exact href.1)
    -- step C: the recorded order
    have hC := compile_ord C σ path n' ty' ips' lvs' lks' ps' rs' cs' rep' cons' ch' ord ord' _ hB
    refine ⟨_, hC, ?_⟩
    simp only [CSim, finishNode, true_and]
    exact ⟨out', hsim, hpB⟩
theorem compileChildren_sim (C : Comparator) : ∀ (l l' : List Routine) (conns : List (Endpoint × Endpoint)) (path : String)
    (pm p : PTree) (out : List CRoutine), RSimList l l' → PWF pm → compileChildren C conns path pm l = .ok (p, out) →
    CRoutine.RefsOKList out → ∃ out', compileChildren C conns path pm l' = .ok (p, out') ∧ CSimList out out'
  | [], l', conns, path, pm, p, out, hs, _, h, _ => by
    simp only [RSimList] at hs
    subst hs
    obtain ⟨rfl, rfl⟩ := compileChildren_nil h
    exact ⟨[], h, by simp [CSimList]⟩
  | a :: l, l', conns, path, pm, p, out, hs, hw, h, href => by
    simp only [RSimList] at hs
    obtain ⟨a', l'', rfl, ha, hl⟩ := hs
    obtain ⟨ca, upd, ccs, hca, hua, hrest, rfl⟩ := compileChildren_cons h
    simp only [CRoutine.RefsOKList] at href
    have hin : NodupKeys ((pm.kids.get? a.name).getD []) := by
      cases hg : pm.kids.get? a.name with
      | none => exact nodupKeys_nil
      | some d => exact hw.kid_nodup hg
    obtain ⟨ca', hca', hsa⟩ := compile_sim C a a' _ _ ca ha hin hca href.1
    obtain ⟨hn1, hn2, _⟩ := hsa.fields
    obtain ⟨out', hrest', hsl⟩ := compileChildren_sim C l l'' conns path _ p ccs hl (hw.mergeUpd upd) hrest href.2
    refine ⟨ca' :: out', ?_, by simp only [CSimList]; exact ⟨ca', out', rfl, hsa, hsl⟩⟩
    apply compileChildren_cons_ok (cc := ca') (upd := upd)
    · rw [ha.name]; exact hca'
    · rw [ha.name, hn2]; exact hua
    · exact hrest'
end

end Bartiq
