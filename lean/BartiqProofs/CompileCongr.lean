/-
  BartiqProofs.CompileCongr — `_compile` cannot tell apart two parameter dictionaries that hold the same bindings in a
  different order (Python dicts filled in another insertion order).  This is the congruence half of "results do not depend on
  listing order"; BartiqProofs/ChildOrder.lean uses it to exchange independent children.
-/
import BartiqProofs.DictPerm
import BartiqProofs.CompileSpec
import BartiqProofs.SortLemmas
namespace Bartiq
open Expr Dict

/-! ### parameter trees up to the order of their entries -/

/-- the children's dictionaries, looked up by name: pairwise the same entries in some order -/
def KRel : Option (Dict Expr) → Option (Dict Expr) → Prop
  | none, none => True
  | some d, some d' => DEq d d'
  | _, _ => False

def KEq (k k' : Dict (Dict Expr)) : Prop := ∀ c, KRel (k.get? c) (k'.get? c)

structure PEq (p p' : PTree) : Prop where
  self : DEq p.self p'.self
  kids : KEq p.kids p'.kids

theorem KEq.get? {k k' : Dict (Dict Expr)} (h : KEq k k') (c : String) :
    (k.get? c = none ∧ k'.get? c = none) ∨ ∃ d d', k.get? c = some d ∧ k'.get? c = some d' ∧ DEq d d' := by
  have := h c
  cases h1 : k.get? c <;> cases h2 : k'.get? c <;> simp only [h1, h2, KRel] at this
  · left; exact ⟨rfl, rfl⟩
  · right; exact ⟨_, _, rfl, rfl, this⟩

theorem KEq.set {k k' : Dict (Dict Expr)} (h : KEq k k') (c : String) {d d' : Dict Expr} (hd : DEq d d')
    (_hin : k.get? c ≠ none) : KEq (k.set c d) (k'.set c d') := by
  intro x
  rw [Dict.get?_set, Dict.get?_set]
  by_cases hc : c = x
  · simp only [hc, if_true, KRel]; exact hd
  · simp only [hc, if_false]; exact h x

theorem KEq.refl (k : Dict (Dict Expr)) (h : ∀ c d, k.get? c = some d → NodupKeys d) : KEq k k := by
  intro c
  cases hc : k.get? c with
  | none => trivial
  | some d => exact DEq.refl (h c d hc)

theorem PEq.mergeUpd {p p' : PTree} (h : PEq p p') : ∀ (u : PUpdate), PEq (p.mergeUpd u) (p'.mergeUpd u) := by
  intro u
  unfold PTreeG.mergeUpd
  induction u generalizing p p' with
  | nil => exact h
  | cons e u ih =>
    simp only [List.foldl_cons]
    apply ih
    cases he : e.1 with
    | none => exact ⟨h.self.set _ _, h.kids⟩
    | some c =>
      simp only
      rcases h.kids.get? c with ⟨h1, h2⟩ | ⟨d, d', h1, h2, hd⟩
      · rw [h1, h2]; exact h
      · rw [h1, h2]
        exact ⟨h.self, h.kids.set c (hd.set _ _) (by rw [h1]; simp)⟩

/-! ### the pieces of `_compile` -/

theorem localsFold_congr (lvs : Dict Expr) : ∀ (order : List String) (st st' : Dict Expr × Dict Expr),
    st.1 = st'.1 → DEq st.2 st'.2 →
    (order.foldl (localsStep Expr.subst lvs) st).1 = (order.foldl (localsStep Expr.subst lvs) st').1
  | [], _, _, h1, _ => h1
  | v :: order, st, st', h1, h2 => by
    simp only [List.foldl_cons]
    apply localsFold_congr lvs order
    · unfold localsStep
      cases lvs.get? v with
      | none => exact h1
      | some e => simp only; rw [h1, subst_congr_lookup h2.get? e]
    · unfold localsStep
      cases lvs.get? v with
      | none => exact h2
      | some e => simp only; rw [subst_congr_lookup h2.get? e]; exact h2.set _ _

theorem compileLocalVariables_congr (lvs : Dict Expr) {σ σ' : Dict Expr} (h : DEq σ σ') :
    compileLocalVariables lvs σ = compileLocalVariables lvs σ' := by
  unfold compileLocalVariables
  cases localOrder lvs with
  | none => rfl
  | some order => simp only; rw [localsFold_congr lvs order ([], σ) ([], σ') rfl h]

theorem localsFold_nodup (lvs : Dict Expr) : ∀ (order : List String) (st : Dict Expr × Dict Expr),
    NodupKeys st.1 → NodupKeys (order.foldl (localsStep Expr.subst lvs) st).1
  | [], _, h => h
  | v :: order, st, h => by
    simp only [List.foldl_cons]
    apply localsFold_nodup lvs order
    unfold localsStep
    cases lvs.get? v with
    | none => exact h
    | some e => exact nodupKeys_set _ _ _ h

theorem compileLocalVariables_nodup {lvs σ lv : Dict Expr} (h : compileLocalVariables lvs σ = .ok lv) : NodupKeys lv := by
  unfold compileLocalVariables at h
  cases ho : localOrder lvs with
  | none => simp [ho, throw, throwThe, MonadExceptOf.throw] at h
  | some order =>
    simp only [ho, pure, Except.pure, Except.ok.injEq] at h
    rw [← h]
    exact localsFold_nodup lvs order ([], σ) nodupKeys_nil

theorem compileLinkedParams_congr {σ σ' : Dict Expr} (h : ∀ x, σ.get? x = σ'.get? x) (lks : Dict (List (String × String))) :
    compileLinkedParams σ lks = compileLinkedParams σ' lks := by
  unfold compileLinkedParams
  congr 1; funext kv
  simp only [subst_congr_lookup h]

theorem newInputParams_congr (ips : List String) {σ σ' : Dict Expr} (h : DEq σ σ') (ports : List Port) :
    newInputParams ips σ ports = newInputParams ips σ' ports := by
  unfold newInputParams
  apply dedupSorted_eq_of_perm
  apply List.Perm.append _ (List.Perm.refl _)
  have he : σ.isEmpty = σ'.isEmpty := by
    have := h.perm.length_eq
    cases σ <;> cases σ' <;> simp_all
  rw [he]
  split
  · exact List.Perm.refl _
  · exact (h.perm.map _).flatMap_right _

theorem pmInit_congr {lv σ σ' : Dict Expr} (hlv : NodupKeys lv) (h : DEq σ σ') (lks : Dict (List (String × String))) (ch : List Routine) :
    PEq (pmInit lv σ lks ch) (pmInit lv σ' lks ch) := by
  unfold pmInit
  have hm : DEq (Dict.merge lv σ) (Dict.merge lv σ') := DEq.merge (DEq.refl hlv) h
  rw [compileLinkedParams_congr hm.get? lks]
  apply PEq.mergeUpd
  exact ⟨hm, KEq.refl _ (by
    intro c d hc
    have : ∀ (l : List Routine), Dict.get? (l.map fun c => (c.name, ([] : Dict Expr))) c = some d → d = [] := by
      intro l
      induction l with
      | nil => intro h; simp [Dict.get?] at h
      | cons x l ih =>
        intro h
        simp only [List.map_cons, Dict.get?] at h
        by_cases hx : x.name = c
        · simp [hx] at h; exact h
        · simp only [hx, if_false] at h; exact ih h
    rw [this ch hc]; exact nodupKeys_nil)⟩

theorem repStep_congr (rep : Option Repetition) (rs : List Resource) (ccs : List CRoutine) {σ σ' : Dict Expr} (h : SameAssignment σ σ') :
    repStep rep rs ccs σ = repStep rep rs ccs σ' := by
  cases rep with
  | none => rfl
  | some rp => simp only [repStep, Repetition.substituteSymbols_congr h]

theorem finishNode_congr (name : String) (ty : Option String) (ips : List String) {σ σ' : Dict Expr} (hσ : DEq σ σ') (ps : List Port)
    (cs : List (Endpoint × Endpoint)) (ord : List String) (nc : List Constraint) (portsIn : List Port) {τ τ' : Dict Expr}
    (hτ : SameAssignment τ τ') (res : List Resource) (rep : Option Repetition) (ccs : List CRoutine) :
    finishNode name ty ips σ ps cs ord nc portsIn τ res rep ccs = finishNode name ty ips σ' ps cs ord nc portsIn τ' res rep ccs := by
  unfold finishNode
  simp only [evaluatePorts_congr hτ, evaluateResources_congr hτ, newInputParams_congr ips hσ]

/-- the outcome of compiling a list of children, up to the order of the entries of the returned parameter tree -/
def RelRes : Except Err (PTree × List CRoutine) → Except Err (PTree × List CRoutine) → Prop
  | .ok (p, c), .ok (p', c') => PEq p p' ∧ c = c'
  | .error e, .error e' => e = e'
  | _, _ => False

mutual
/-- **`_compile` depends on its inputs only as a mapping** -/
theorem compile_congr (C : Comparator) : ∀ (r : Routine) (σ σ' : Dict Expr) (path : String), DEq σ σ' →
    compile C σ path r = compile C σ' path r
  | ⟨name, ty, ips, lvs, lks, ps, rs, cs, rep, cons, ch, ord⟩, σ, σ', path, h => by
    simp only [compile]
    rw [compileLocalVariables_congr lvs h]
    cases hlv : compileLocalVariables lvs σ' with
    | error e => rfl
    | ok lv =>
      have hnd := compileLocalVariables_nodup hlv
      have hm : DEq (Dict.merge lv σ) (Dict.merge lv σ') := DEq.merge (DEq.refl hnd) h
      simp only [bind, Except.bind]
      rw [evaluateConstraints_congr C hm.sameAssignment]
      cases evaluateConstraints C cons (Dict.merge lv σ') path with
      | error e => rfl
      | ok nc =>
        simp only
        have hpm := pmInit_congr hnd h lks ch
        rw [evaluatePorts_congr hpm.self.sameAssignment]
        cases hupd : paramTreeFromCompiledPorts (connectionsFrom cs none)
            (evaluatePorts (Port.portsOf ps [.input, .through]) (pmInit lv σ' lks ch).self) with
        | error e => rfl
        | ok upd =>
          simp only
          have hrel := compileChildren_congr C ch cs path _ _ (hpm.mergeUpd upd)
          cases h1 : compileChildren C cs path ((pmInit lv σ lks ch).mergeUpd upd) ch with
          | error e =>
            cases h2 : compileChildren C cs path ((pmInit lv σ' lks ch).mergeUpd upd) ch with
            | error e' => rw [h1, h2] at hrel; simp only [RelRes] at hrel; rw [hrel]
            | ok x => rw [h1, h2] at hrel; simp [RelRes] at hrel
          | ok x =>
            cases h2 : compileChildren C cs path ((pmInit lv σ' lks ch).mergeUpd upd) ch with
            | error e' => rw [h1, h2] at hrel; obtain ⟨p, c⟩ := x; simp [RelRes] at hrel
            | ok x' =>
              obtain ⟨p, c⟩ := x
              obtain ⟨p', c'⟩ := x'
              rw [h1, h2] at hrel
              simp only [RelRes] at hrel
              obtain ⟨hp, hc⟩ := hrel
              subst hc
              simp only
              have hs : DEq (Dict.merge p.self (childrenVariables c)) (Dict.merge p'.self (childrenVariables c)) :=
                DEq.merge hp.self (DEq.refl (by unfold childrenVariables Dict.ofList; exact nodupKeys_merge nodupKeys_nil))
              rw [repStep_congr rep rs c hs.sameAssignment]
              cases repStep rep rs c (Dict.merge p'.self (childrenVariables c)) with
              | error e => rfl
              | ok y =>
                simp only [pure, Except.pure]
                rw [finishNode_congr name ty ips h ps cs ord nc _ hs.sameAssignment]
theorem compileChildren_congr (C : Comparator) : ∀ (ch : List Routine) (conns : List (Endpoint × Endpoint)) (path : String)
    (pm pm' : PTree), PEq pm pm' → RelRes (compileChildren C conns path pm ch) (compileChildren C conns path pm' ch)
  | [], _, _, pm, pm', h => by
    show RelRes (.ok (pm, [])) (.ok (pm', []))
    exact ⟨h, rfl⟩
  | k :: ks, conns, path, pm, pm', h => by
    simp only [compileChildren]
    have hin : DEq ((pm.kids.get? k.name).getD []) ((pm'.kids.get? k.name).getD []) := by
      rcases h.kids.get? k.name with ⟨h1, h2⟩ | ⟨d, d', h1, h2, hd⟩
      · rw [h1, h2]; exact DEq.refl nodupKeys_nil
      · rw [h1, h2]; exact hd
    rw [compile_congr C k _ _ _ hin]
    cases compile C ((pm'.kids.get? k.name).getD []) (path ++ "." ++ k.name) k with
    | error e => simp [bind, Except.bind, RelRes]
    | ok cc =>
      simp only [bind, Except.bind]
      cases paramTreeFromCompiledPorts (connectionsFrom conns (some k.name)) cc.ports with
      | error e => simp [RelRes]
      | ok upd =>
        simp only
        have ih := compileChildren_congr C ks conns path _ _ (h.mergeUpd upd)
        cases h1 : compileChildren C conns path (pm.mergeUpd upd) ks with
        | error e =>
          cases h2 : compileChildren C conns path (pm'.mergeUpd upd) ks with
          | error e' => rw [h1, h2] at ih; simpa [RelRes] using ih
          | ok x => rw [h1, h2] at ih; simp [RelRes] at ih
        | ok x =>
          cases h2 : compileChildren C conns path (pm'.mergeUpd upd) ks with
          | error e' => rw [h1, h2] at ih; obtain ⟨p, c⟩ := x; simp [RelRes] at ih
          | ok x' =>
            obtain ⟨p, c⟩ := x
            obtain ⟨p', c'⟩ := x'
            rw [h1, h2] at ih
            simp only [RelRes] at ih
            simp only [pure, Except.pure, RelRes]
            exact ⟨ih.1, by rw [ih.2]⟩
end

end Bartiq
